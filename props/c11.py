"""C11 - aggregates fold exactly the numeric cells of their arguments (DESIGN 5 C11)."""
import ast

from pv import propkit as K, schema
from pv.core import PropResult

LEVEL = 'proof'
EXPLANATION = ('K1: the element filters of _only_numeric_list / _only_bool_list / _only_datetime_list / _count_blank proved '
               'for every value (an element is folded exactly when it is an int or a float), _flatten_list (leaf count, no '
               'nested lists left, identity on flat lists; own contract as induction hypothesis); K3: each fold helper is '
               'the Python fold of the statement applied to the filtered list; K-S: every argument reaches the fold, in '
               'order, each area expanded row-major; K4 planted-content monitor.')
MOD = 'contracts.rt'
K1 = ['_only_numeric_list.filter', '_only_bool_list.filter', '_only_datetime_list.filter', '_count_blank.filter',
      '_flatten_list', '_find_error_in_list']
A = 'AREA(0, 0, 0, 0, 1)'
B = 'AREA(0, 1, 0, 1, 1)'
AB = 'AREA(0, 0, 0, 1, 1)'
TABLE = [
    ('SUM.binding', '=SUM(A1:A2,B1:B2,900001)', f'self._sum(self._only_numeric_list(self._flatten_list([{A}, {B}, 900001])))',
     'every area and scalar argument reaches the fold once, in order'),
    ('SUM.rectangle', '=SUM(A1:B2)', f'self._sum(self._only_numeric_list(self._flatten_list([{AB}])))', ''),
    ('AVERAGE.binding', '=AVERAGE(A1:B2,900001)', f'self._average(self._only_numeric_list(self._flatten_list([{AB}, 900001])))', ''),
    ('MIN.binding', '=MIN(A1:A2,B1:B2)', f'self._min(self._flatten_list([{A}, {B}]))', ''),
    ('MAX.binding', '=MAX(A1:A2,B1:B2,900001,900002)', f'self._max(self._only_numeric_list(self._flatten_list([{A}, {B}, 900001, 900002])))',
     'all arguments, not only the first few'),
    ('COUNT.binding', '=COUNT(A1:A2,B1:B2)', f'self._count([{A}, {B}], ANY, ANY)', 'several areas'),
    ('COUNTBLANK.binding', '=COUNTBLANK(A1:B2)', f'self._count_blank(self._flatten_list([{AB}]))', ''),
    ('AND.binding', '=AND(900001,900002)', 'self._and(self._flatten_list([900001, 900002]))', ''),
    ('OR.binding', '=OR(900001,900002,900003)', 'self._or(self._flatten_list([900001, 900002, 900003]))', ''),
]


def _shape(helper, fold, inner):
    """body is `return <fold>(<inner applied to the parameter>)` (after an optional error-value guard)"""
    def pred(node):
        body = [s for s in node.body if not (isinstance(s, ast.Expr) and isinstance(s.value, ast.Constant))]
        ret = body[-1]
        if not isinstance(ret, ast.Return):
            return False, 'last statement is not a return'
        got = ast.unparse(ret.value)
        return got == fold.format(inner), f'returns {got}; prescribed {fold.format(inner)}'
    return pred


SHAPES = [
    ('_sum', 'sum({})', 'self._only_numeric_list(flatten_list)', 'SUM is the sum of the numeric cells'),
    ('_average', '{}', 'self._sum(flatten_list) / len(self._only_numeric_list(flatten_list))',
     'AVERAGE is the sum of the numeric cells over their count'),
    ('_min', 'min({})', 'self._only_numeric_list(flatten_list)', 'MIN of the numeric cells'),
    ('_max', 'max({})', 'self._only_numeric_list(flatten_list)', 'MAX of the numeric cells'),
    ('_or', 'any({})', 'flatten_list', 'OR is the disjunction of the truth values'),
    ('_and', 'all({})', 'flatten_list', 'AND is the conjunction of the truth values'),
    ('_count_blank', 'len({})', 'empty', 'COUNTBLANK counts the elements kept by the blank filter'),
]


def _comp_shape(helper):
    def pred(node):
        ret = node.body[-1]
        ok = isinstance(ret, ast.Return) and isinstance(ret.value, ast.ListComp) and len(ret.value.generators) == 1 and \
            isinstance(ret.value.elt, ast.Name) and isinstance(ret.value.generators[0].target, ast.Name) and \
            ret.value.elt.id == ret.value.generators[0].target.id and isinstance(ret.value.generators[0].iter, ast.Name) and \
            ret.value.generators[0].iter.id == 'flatten_list'
        return ok, 'return [x for x in flatten_list if <filter>]' if ok else f'body is {ast.unparse(ret)[:120]}'
    return pred


CONFORMANCE = {"_flatten_list": [{"subject": [1, [2, [3, 4]], [], [[5]]]}, {"subject": []}, {"subject": [1, 2, 3]}], "_only_numeric_list.filter": [{"i": True, "with_string_digits": False}, {"i": {"$e": 1}, "with_string_digits": False}, {"i": {"$f": "2.5"}, "with_string_digits": False}, {"i": "12", "with_string_digits": True}, {"i": "1.2", "with_string_digits": True}], "_count_blank.filter": [{"elem": None}, {"elem": ""}, {"elem": {"$e": 1}}, {"elem": 0}, {"elem": False}]}


def run(ctx):
    res = PropResult('C11')
    K.k1_block(res, ctx, MOD, K1, 'C11.')
    for h in ('_only_numeric_list', '_only_bool_list', '_only_datetime_list'):
        K.shape(res, f'C11.{h}.shape', f'runtime:{h}', _comp_shape(h),
                'the helper is the filter of its argument by the element predicate proved above (order kept)')
    for h, fold, inner, why in SHAPES:
        K.shape(res, f'C11.{h}.fold_shape', f'runtime:{h}', _shape(h, fold, inner), why)
    schema.run_table(res, 'C11', TABLE)
    K.canary_contract(res, MOD, '_only_numeric_list.filter', 'numeric_only',
                      'implies(not Bv(with_string_digits), truthy(result) == (is_numcell(i) or is_bool(i)))')
    K.conformance(res, 'contracts.rt', CONFORMANCE)
    K.monitor_if_present(res, ctx, 'mon_c11')
    res.trusted_base += ['CPython semantics of list comprehension (filter in order), sum / min / max / any / all / len',
                         'L-SUBST', 'A-ACYCLIC: lists are finite trees']
    res.assumptions += ['A-REAL: SUM(X,Y) = SUM(X)+SUM(Y) holds in exact arithmetic (float addition is not associative)',
                        'every-leaf-once is proved as a count (as many result elements as leaves) and as identity on flat '
                        'lists; the element-by-element order on nested input is covered by the bounded monitor']
    return res


def replay(p):
    return K.replay_any(p)
