"""C06 - translation is total: a loadable Python class or a library exception (DESIGN 5 C06)."""
import ast

import z3

from pv import propkit as K, schema, native
from pv.core import PropResult, Ob

LEVEL = 'other'
EXPLANATION = ('Exception-freedom of a dynamically typed translator cannot be proved wholesale. Proved named partial '
               'operations: AstBuilder.parse never returns None / a partial parse (K1), Cell.uid has the format _t_c_r and is a '
               'Python identifier for non-negative integers (K1 + LEMMA), handle_cell rejects unknown titles and row 0 with the '
               'library exception (K1), Excel._fill_cell never raises IndexError (K1), Parser never leaves a stale text after a '
               'failed attempt (K1, C09), every schema emission is a Python expression without top-level comma (K2), lexer '
               'progress and no left recursion (K2, C05). The rest is a bounded monitor.')


def _identifier(res):
    from pv import sorts as S

    def build():
        a, b, c = z3.Strings('dt dc dr')       # the decimal texts of title, column, row
        digits = z3.Plus(z3.Range('0', '9'))
        uid = z3.Concat(z3.StringVal('_'), a, z3.StringVal('_'), b, z3.StringVal('_'), c)
        ident = z3.Concat(z3.Re('_'), digits, z3.Re('_'), digits, z3.Re('_'), digits)
        return [z3.InRe(a, digits), z3.InRe(b, digits), z3.InRe(c, digits)], z3.InRe(uid, ident)
    K.lemma(res, 'C06.Cell.uid.identifier', build,
            'with str(i) a non-empty digit string for i >= 0 (A-STR, trusted: neither z3 nor cvc5 decides str.from_int(i) in '
            '[0-9]+ within 30 s), the uid _t_c_r (format proved in C02.Cell.uid) matches _[0-9]+_[0-9]+_[0-9]+, a Python '
            'identifier, so `def <uid>(self):` compiles', timeout_ms=30000)


def _expressions(res):
    import props.c11 as c11, props.c12 as c12, props.c13 as c13, props.c14 as c14, props.c15 as c15, props.c16 as c16, \
        props.c17 as c17, props.c01 as c01
    formulas = []
    for m in (c01, c11, c12, c13, c14, c15, c16, c17):
        formulas += [row[1] for row in m.TABLE]
    formulas = sorted(set(formulas))
    r = native.call('schema', 'emit_each', formulas=formulas)
    bad = []
    for f, raw, err in zip(formulas, r['raw'], r['errors']):
        if raw is None:
            if err and 'E2Pycl' in str(err):
                continue
            bad.append(f'{f}: {err}')
            continue
        try:
            t = ast.parse(raw, mode='eval').body
            if isinstance(t, ast.Tuple):
                bad.append(f'{f}: top-level comma in {raw[:60]}')
        except SyntaxError as e:
            bad.append(f'{f}: emitted text is not an expression: {raw[:60]}')
    o = Ob('C06.Emit.is_expression', 'K2', decisive=True, function='all translators (schema formulas of every property)')
    o.count = len(formulas)
    o.status = 'failed' if bad else 'discharged'
    o.detail = '; '.join(bad[:4]) if bad else f'{len(formulas)} schema formulas: every emitted cell body parses as a Python ' \
        'expression without top-level comma (base cases of L-SUBST)'
    if bad:
        o.confirmed = True
    res.add(o)


def run(ctx):
    res = PropResult('C06')
    K.k1_block(res, ctx, 'contracts.c05', ['AstBuilder.parse'], 'C06.')
    K.k1_block(res, ctx, 'contracts.c02', ['handle_cell', 'Excel._fill_cell'], 'C06.')
    K.k1_block(res, ctx, 'contracts.c02:registry_uid', ['Cell.uid'], 'C06.')
    K.k1_block(res, ctx, 'contracts.c09', ['Parser._translate', 'Parser.get_translation', 'Parser.write_translation'], 'C06.')
    _identifier(res)
    _expressions(res)
    K.monitor_if_present(res, ctx, 'mon_c06', timeout=3000)
    res.assumptions += ['A-EXC: MemoryError / RecursionError on deep nesting are not modelled (depth is unbounded)',
                        'everything not named above is decided only to the monitor\'s bound']
    return res


def replay(p):
    return K.replay_any(p)
