"""C05 - a formula is translated whole or rejected - never silently truncated (DESIGN 5 C05)."""
from pv import propkit as K, native
from pv.core import PropResult, Ob

LEVEL = 'proof'
EXPLANATION = ('K1: CompositeBaseToken.get / _get (get answers from _get, which functools.lru_cache memoises - K5; _get is the ordered-choice parser with dynamic class dispatch; two loops, own contract as '
               'induction hypothesis for the recursive call) returns either (None, the untouched token list) or a token that '
               'covers exactly a non-empty prefix of the lexer tokens, leaves in order, whose children match one token set of '
               'its class, plus the untouched suffix - nothing is dropped, duplicated or reordered; AstBuilder.parse returns '
               'the tree only when nothing is left over, else the library parser exception; two auxiliary lemmas (append-'
               'prefix, position decomposition) proved by induction (base / step queries); K2: no lexer token class accepts '
               'the empty string, no left recursion (termination), both separators are one token class. The regex lexer '
               '(whitespace, line breaks, token extraction) is bounded.')
K1 = ['AstBuilder.parse']
K1_GET = ['CompositeBaseToken.get', 'CompositeBaseToken._get']


def _grammar(res):
    g = native.call('c05k2', 'grammar_facts')
    o = Ob('C05.Lexer.progress', 'K2', decisive=False, function='tokens/regexp_tokens (all lexer token classes)')
    o.count = g['n_regexp']
    o.status = 'failed' if g['nullable'] else 'discharged'
    o.detail = (f'token classes accepting the empty string: {g["nullable"]}' if g['nullable'] else
                f'none of the {g["n_regexp"]} lexer token classes matches the empty string (real re on the real regexps)')
    res.add(o)
    o = Ob('C05.Grammar.no_left_recursion', 'K2', decisive=False, function='tokens/composite_tokens (all token sets)')
    o.count = g['n_sets']
    o.status = 'failed' if g['left_recursive'] else 'discharged'
    o.detail = (f'left-recursive composite tokens: {g["left_recursive"]}' if g['left_recursive'] else
                f'{g["n_sets"]} token sets of {g["n_composite"]} composite classes: every cycle of the first-symbol graph passes '
                'a lexer token first, so CompositeBaseToken.get consumes input before it recurses into the same class')
    res.add(o)
    o = Ob('C05.Separator.interchangeable', 'K2', decisive=False, function='tokens: SeparatorToken')
    o.status = 'discharged' if g['separator_ok'] else 'failed'
    o.detail = g['separator_detail']
    res.add(o)


def _lemmas(res):
    import z3
    from pv import sorts as S
    from pv.sorts import ln, at
    from contracts import c05
    reg = c05.registry_get()
    pw, width = reg.lemma_symbols['pw'], reg.lemma_symbols['width']
    p, k = z3.Const('lp', S.V), z3.Int('lk')
    defs = [z3.ForAll([p, k], z3.Implies(k <= 0, pw(p, k) == 0), patterns=[pw(p, k)]),
            z3.ForAll([p, k], z3.Implies(k > 0, pw(p, k) == pw(p, k - 1) + width(at(p, k - 1))), patterns=[pw(p, k)]),
            z3.ForAll([p], width(p) >= 0, patterns=[width(p)])]
    N, O, n, x, j, i = z3.Const('N', S.V), z3.Const('O', S.V), z3.Int('n'), z3.Int('x'), z3.Int('j'), z3.Int('i')
    same = z3.ForAll([i], z3.Implies(z3.And(0 <= i, i < ln(O)), at(N, i) == at(O, i)), patterns=[at(N, i)])
    K.lemma(res, 'C05.lemma.append_prefix.base', lambda: (defs + [same, n <= 0], pw(N, n) == pw(O, n)),
            'pw(new, k) == pw(old, k) for k <= 0')
    K.lemma(res, 'C05.lemma.append_prefix.step',
            lambda: (defs + [same, 0 <= n, n < ln(O), pw(N, n) == pw(O, n)], pw(N, n + 1) == pw(O, n + 1)),
            'induction step: the first k parts of old and of old + [x] have the same total width (k <= len(old))')

    def covered(m, xx):
        return z3.Exists([j], z3.And(0 <= j, j < m, pw(p, j) <= xx, xx < pw(p, j + 1)))
    K.lemma(res, 'C05.lemma.decomposition.base', lambda: (defs + [0 <= x, x < pw(p, 0)], z3.BoolVal(False)),
            'no leaf position below pw(parts, 0) == 0')
    # step with explicit witnesses: the induction hypothesis instantiated at x yields some j0 < n (Skolem constant);
    # the goal exhibits the witness j0 (x below pw(parts, n)) or n (x in the last part)
    j0 = z3.Int('j0')
    ih_at_x = z3.Implies(z3.And(0 <= x, x < pw(p, n)), z3.And(0 <= j0, j0 < n, pw(p, j0) <= x, x < pw(p, j0 + 1)))
    goal = z3.Or(z3.And(0 <= j0, j0 < n + 1, pw(p, j0) <= x, x < pw(p, j0 + 1)), z3.And(pw(p, n) <= x, x < pw(p, n + 1)))
    K.lemma(res, 'C05.lemma.decomposition.step',
            lambda: (defs + [0 <= n, n < ln(p), ih_at_x, 0 <= x, x < pw(p, n + 1)], goal),
            'induction step: every leaf position below pw(parts, n+1) lies in one of the first n+1 parts (witness: the part '
            'given by the induction hypothesis, or part n)')


def run(ctx):
    res = PropResult('C05')
    K.engine_selftest(res)
    K.k1_block(res, ctx, 'contracts.c05', K1, 'C05.')
    K.k1_block(res, ctx, 'contracts.c05:registry_get', K1_GET, 'C05.')
    _lemmas(res)
    _grammar(res)
    K.canary_contract(res, 'contracts.c05', 'AstBuilder.parse', 'whole_formula', 'len(entry_rest(expression)) > 0')
    K.monitor_if_present(res, ctx, 'mon_c05')
    res.trusted_base += ['assumed contract of EntryPointToken.get (token or None, unconsumed rest)', 'CPython re']
    res.assumptions += ['tokens are modelled as immutable values (lexer token: width 1; composite: node(class, parts)); the set '
                        'comprehension deciding the control-construction flag is abstracted (it only chooses between returning None '
                        'and raising the parser exception)', 'partial correctness of the recursion; termination from '
                        'C05.Grammar.no_left_recursion + C05.Lexer.progress', 'message arguments of raised exceptions are not evaluated',
                        'K5 functools.lru_cache (decorator of CompositeBaseToken._get, ignored by the VC generator): a cached answer is '
                        'an answer the function gave for equal (cls, tuple of the same token objects, cell) - the function reads only '
                        'immutable class data and its arguments, and the token objects it returns are never mutated afterwards except '
                        'for IterableExpressionToken._expressions (an idempotent cache); AstBuilder.parse clears the cache per formula']
    return res


def replay(p):
    return K.replay_any(p)
