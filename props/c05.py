"""C05 - a formula is translated whole or rejected - never silently truncated (DESIGN 5 C05)."""
from pv import propkit as K, native
from pv.core import PropResult, Ob

LEVEL = 'other'
EXPLANATION = ('K1: AstBuilder.parse returns the tree only when the entry rule matched and nothing is left over, else the '
               'library parser exception; K2: no lexer token class accepts the empty string (every accepted token consumes at '
               'least one character), the grammar has no left recursion (every token set starts with a lexer token or a '
               'composite whose own sets do); the consumed-prefix contract of CompositeBaseToken.get is a run-time contract '
               'monitored on every call of the bounded sweep (dynamic class dispatch keeps it outside the K1 subset), so the '
               'level is other.')
K1 = ['AstBuilder.parse']


def _grammar(res):
    g = native.call('c05k2', 'grammar_facts')
    o = Ob('C05.Lexer.progress', 'K2', decisive=False, function='tokens/regexp_tokens (all lexer token classes)')
    o.count = g['n_regexp']
    o.status = 'failed' if g['nullable'] else 'discharged'
    o.detail = (f'token classes accepting the empty string: {g["nullable"]}' if g['nullable'] else
                f'none of the {g["n_regexp"]} lexer token classes matches the empty string (real re on the real regexps)')
    res.add(o)
    o = Ob('C05.Grammar.no_left_recursion', 'K2', decisive=False, function='tokens/composite_tokens (all token sets)')
    o.count = g['n_sets']
    o.status = 'failed' if g['left_recursive'] else 'discharged'
    o.detail = (f'left-recursive composite tokens: {g["left_recursive"]}' if g['left_recursive'] else
                f'{g["n_sets"]} token sets of {g["n_composite"]} composite classes: every cycle of the first-symbol graph passes '
                'a lexer token first, so CompositeBaseToken.get consumes input before it recurses into the same class')
    res.add(o)
    o = Ob('C05.Separator.interchangeable', 'K2', decisive=False, function='tokens: SeparatorToken')
    o.status = 'discharged' if g['separator_ok'] else 'failed'
    o.detail = g['separator_detail']
    res.add(o)


def run(ctx):
    res = PropResult('C05')
    K.k1_block(res, ctx, 'contracts.c05', K1, 'C05.')
    _grammar(res)
    K.canary_contract(res, 'contracts.c05', 'AstBuilder.parse', 'whole_formula', 'result == entry_token(expression)')
    K.monitor_if_present(res, ctx, 'mon_c05')
    res.trusted_base += ['assumed contract of EntryPointToken.get (token or None, unconsumed rest)', 'CPython re']
    res.assumptions += ['CompositeBaseToken.get (ordered-choice parser with dynamic class dispatch) is not under a K1 '
                        'contract; its consumed-prefix postcondition is checked at run time by the bounded monitor']
    return res


def replay(p):
    return K.replay_any(p)
