"""C16 - rounding and percent are decimal-exact (DESIGN 5 C16): bounded only."""
from pv import propkit as K, schema
from pv.core import PropResult

LEVEL = 'other'
EXPLANATION = ('The statement is about the double nearest to a decimal result; decimal<->binary conversion is outside every '
               'installed solver (FP theory has no decimal-string conversion) and outside the K1 encoding (A-REAL). Decided '
               'by an exhaustive decimal grid against integer-arithmetic / decimal oracles (bounded, never proved); only the '
               'argument binding of the translators is proved (K-S).')
TABLE = [
    ('ROUND.binding', '=ROUND(900001,900002)', 'self._round(900001, 900002)', ''),
    ('ROUNDUP.binding', '=ROUNDUP(900001,900002)', 'self._roundup(900001, 900002)', ''),
    ('ROUNDDOWN.binding', '=ROUNDDOWN(900001,900002)', 'self._rounddown(900001, 900002)', ''),
    ('PERCENT.emit', '=900001%', 'self._normalize_float_number(900001 / 100)', 'x% is x/100 normalised to 15 significant digits'),
    ('PERCENT.of_cell', '=A1%', 'self._normalize_float_number(CELL(0, 0, 0) / 100)', ''),
]


def run(ctx):
    res = PropResult('C16')
    schema.run_table(res, 'C16', TABLE)
    K.monitor_if_present(res, ctx, 'mon_c16', timeout=3000)
    res.trusted_base += ['L-SUBST', 'oracle: decimal / integer arithmetic on the decimal text (cross-checked against '
                         'decimal.quantize and Fraction before each run)']
    res.assumptions += ['bounded: see the bounds of C16.monitor.*; nothing about the numeric results is proved']
    return res


def replay(p):
    return K.replay_any(p)
