"""C14 - lookup and reference functions return the addressed element (DESIGN 5 C14)."""
from pv import propkit as K, schema, native
from pv.core import PropResult, Ob

LEVEL = 'proof'
EXPLANATION = ('K1: _index, _match (exact, approximate on numbers), _xmatch (exact, both directions), _vlookup (exact, '
               'approximate) proved with loop invariants for all arguments of the stated sorts; K2: ADDRESS for every column '
               '1..16384 x 4 reference types on the real helper, COLUMN for every column letter through the real translator; '
               'K-S: argument binding and the defaults chosen at translation time; K4 planted-table monitor.')
MOD = 'contracts.rt'
K1 = ['_index', '_match/exact', '_match/approx/num', '_xmatch/exact', '_vlookup/exact', '_vlookup/approx']
A12 = 'AREA(0, 0, 0, 1, 1)'
A13 = 'AREA(0, 0, 0, 0, 2)'
TABLE = [
    ('VLOOKUP.default_range_lookup', '=VLOOKUP(900001,A1:B2,900002)', f'self._vlookup(900001, {A12}, 900002, True)',
     'omitted range_lookup means approximate matching'),
    ('VLOOKUP.binding', '=VLOOKUP(900001,A1:B2,900002,FALSE)', f'self._vlookup(900001, {A12}, 900002, False)', ''),
    ('MATCH.default_type', '=MATCH(900001,A1:A3)', f'self._match(900001, {A13}, 1)', 'omitted match type is 1'),
    ('MATCH.binding', '=MATCH(900001,A1:A3,0)', f'self._match(900001, {A13}, 0)', ''),
    ('XMATCH.defaults', '=XMATCH(900001,A1:A3)', f'self._xmatch(900001, {A13}, 0, True)',
     'exact match, search from the start (True == 1 selects the from-start branch)'),
    ('XMATCH.binding', '=XMATCH(900001,A1:A3,0,-1)', f'self._xmatch(900001, {A13}, 0, -1)', ''),
    ('INDEX.binding', '=INDEX(A1:B2,900001,900002)', f'self._index({A12}, 900001, 900002, 1)', 'area number defaults to 1'),
    ('INDEX.row_only', '=INDEX(A1:B2,900001)', f'self._index({A12}, 900001, None, 1)', ''),
    ('INDEX.of_MATCH', '=INDEX(B1:B3,MATCH(900001,A1:A3,0))',
     f'self._index(AREA(0, 1, 0, 1, 2), self._match(900001, {A13}, 0), None, 1)', 'INDEX(values, MATCH(k, keys, 0))'),
    ('ADDRESS.binding', '=ADDRESS(900001,900002)', 'self._address(900001, 900002, *[])', ''),
    ('COLUMN.own_cell', '=COLUMN()', '26', 'the formula sits in column Z'),
    ('COLUMN.reference', '=COLUMN(B5)', '2', ''),
]


def _address_all(res, ctx):
    o = Ob('C14._address.columns', 'K2', function='runtime:_address / abstract:_address')
    r = native.call('c14k2', 'address_all')
    o.count = r['n']
    if r['bad']:
        o.status, o.confirmed = 'failed', True
        o.detail = f'{len(r["bad"])} of {r["n"]} (copy, row, column, reference type) results differ, e.g. {r["bad"][:3]}'
        o.witness = {'kind': 'address', 'case': r['bad'][0]}
    else:
        o.status, o.detail = 'discharged', f'{r["n"]} results: columns 1..16384 x reference types 1..4 (+ omitted) x both copies'
    res.add(o)
    o2 = Ob('C14.COLUMN.all_letters', 'K2', function='translators/column_cc_token_translator.py')
    r2 = native.call('c14k2', 'column_all')
    o2.count = r2['n']
    if r2['bad']:
        o2.status, o2.confirmed = 'failed', True
        o2.detail = f'{len(r2["bad"])} of {r2["n"]} COLUMN(<letters>1) results differ, e.g. {r2["bad"][:3]}'
        o2.witness = {'kind': 'column', 'case': r2['bad'][0]}
    else:
        o2.status, o2.detail = 'discharged', f'COLUMN(X1) == column number for all {r2["n"]} column names A..XFD'
    res.add(o2)


CONFORMANCE = {"_index": [{"matrix_list": [[1, 2], [3, 4]], "row_number": 2, "column_number": 1, "area_number": 1}, {"matrix_list": [[1, 2], [3, 4]], "row_number": 3, "column_number": 1, "area_number": 1}, {"matrix_list": [[1], [2], [3]], "row_number": 3, "column_number": 1, "area_number": 1}, {"matrix_list": [[1, 2, 3]], "row_number": 1, "column_number": 4, "area_number": 1}], "_match/exact": [{"lookup_value": 2, "lookup_array": [[1], [{"$f": "2.0"}], [3]], "match_type": 0}, {"lookup_value": "b", "lookup_array": [["a"], ["B"]], "match_type": 0}, {"lookup_value": 5, "lookup_array": [[1], [2]], "match_type": 0}, {"lookup_value": 1, "lookup_array": [["x"], [{"$e": 1}], [1]], "match_type": 0}], "_match/approx/num": [{"lookup_value": {"$f": "2.5"}, "lookup_array": [[1], [2], [3]], "match_type": 1}, {"lookup_value": 9, "lookup_array": [[1], [2], [3]], "match_type": 1}, {"lookup_value": 0, "lookup_array": [[1], [2]], "match_type": 1}], "_vlookup/exact": [{"lookup_value": 2, "table_array": [[1, "a"], [2, "b"], [2, "c"]], "col_index_num": 2, "range_lookup": False}, {"lookup_value": "x", "table_array": [[1, "a"]], "col_index_num": 1, "range_lookup": False}], "_vlookup/approx": [{"lookup_value": {"$f": "2.5"}, "table_array": [[1, "a"], [2, "b"], [3, "c"]], "col_index_num": 2, "range_lookup": True}, {"lookup_value": 9, "table_array": [[1, "a"], [2, "b"], [3, "c"]], "col_index_num": 2, "range_lookup": True}], "_xmatch/exact": [{"lookup_value": 2, "lookup_array": [[2], [1], [2]], "match_mode": 0, "search_mode": -1}, {"lookup_value": 2, "lookup_array": [[2], [1], [2]], "match_mode": 0, "search_mode": 1}]}


def run(ctx):
    res = PropResult('C14')
    K.k1_block(res, ctx, MOD, K1, 'C14.')
    schema.run_table(res, 'C14', TABLE)
    _address_all(res, ctx)
    K.canary_contract(res, MOD, '_index', 'element',
                      'implies(I(row_number) <= len(matrix_list) and I(column_number) <= len(matrix_list[0]), '
                      'result == matrix_list[I(row_number)][I(column_number) - 1])')
    K.conformance(res, 'contracts.rt', CONFORMANCE)
    K.monitor_if_present(res, ctx, 'mon_c14')
    res.trusted_base += ['L-SUBST', 'str.lower modelled as an uninterpreted idempotent length-preserving function (A-STR)']
    res.assumptions += ['A-REAL', 'A-STR', 'approximate MATCH with a TEXT lookup value is covered by the bounded monitor only '
                        '(z3 times out on transitivity of the string order under quantifiers)',
                        'XMATCH approximate modes and binary-search modes are outside the statement']
    return res


def replay(p):
    if p.get('kind') == 'address':
        r = native.call('c14k2', 'address_one', case=p['case'])
        return r['fails'], r['text']
    if p.get('kind') == 'column':
        r = native.call('c14k2', 'column_one', case=p['case'])
        return r['fails'], r['text']
    return K.replay_any(p)
