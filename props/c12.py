"""C12 - conditional aggregates select exactly the positions meeting every criterion (DESIGN 5 C12)."""
from pv import propkit as K, schema
from pv.core import PropResult

LEVEL = 'proof'
EXPLANATION = ('K1: the marking loops of SUMIFS / COUNTIFS / AVERAGEIFS (1 and 2 criteria pairs) and SUMIF proved with '
               'abstract total criteria: position j survives exactly when every criterion accepts the j-th cell of its range '
               '(blank as 0, TRUE/FALSE as 1/0), ranges of different sizes raise; element contracts of the final folds; K-S '
               'binding of target range and (range, criterion) pairs; K1 on _accepts: what a typed criterion accepts (a number, a '
               'boolean, a date, or one of the six operators joined to such an operand: 21 instances - only cells of the same kind, '
               'exact comparison, <> the negation of =); criteria written as text (operator prefix parsing, wildcards, numeric and '
               'date texts: str / re / dateutil) are bounded only.')
MOD = 'contracts.rt'
K1 = ['_sum_if', '_sumifs.select/1', '_sumifs.select/2', '_countifs.select/1', '_countifs.select/2',
      '_averageifs.select/1', '_averageifs.select/2', '_countifs.count_filter', '_sumifs.bool_to_int', '_sumifs.keep_filter',
      '_when_cell_is_empty_cast_to_zero.elt'] + \
     [f'_accepts/{form}/{kind}' for kind in ('num', 'bool', 'date') for form in ('plain', 'eq', 'ne', 'gt', 'lt', 'ge', 'le')]
A = 'AREA(0, 0, 0, 0, 2)'
B = 'AREA(0, 1, 0, 1, 2)'
Cc = 'AREA(0, 2, 0, 2, 2)'
TABLE = [
    ('SUMIFS.binding', '=SUMIFS(A1:A3,B1:B3,">1",C1:C3,"<5")', f'self._sumifs({A}, *[*({B}, ANY), *({Cc}, ANY)])',
     'target first, then (range, criterion) pairs in order'),
    ('COUNTIFS.binding', '=COUNTIFS(A1:A3,">1",B1:B3,"<5")', f'self._countifs({A}, ANY, *[*({B}, ANY)])',
     'first pair is the counted range and its condition, further pairs follow in order'),
    ('AVERAGEIFS.binding', '=AVERAGEIFS(A1:A3,B1:B3,">1")', f'self._averageifs({A}, *[*({B}, ANY)])', ''),
    ('SUMIF.binding', '=SUMIF(A1:A3,">1",B1:B3)', f'self._sum_if({A}, ANY, {B})', 'criteria range, criterion, target range'),
    ('SUMIF.same_range', '=SUMIF(A1:A3,">1")', f'self._sum_if({A}, ANY, {A})', 'omitted target is the criteria range'),
    ('SUMIF.target_geometry', '=SUMIF(A1:A3,">1",B1)', f'self._sum_if({A}, ANY, {B})',
     'the target takes the geometry of the criteria range (get_similar_second, proved in C02)'),
]


CONFORMANCE = {"_sumifs.bool_to_int": [{"i": True}, {"i": 5}, {"i": "x"}], "_when_cell_is_empty_cast_to_zero.elt": [{"i": {"$e": 1}}, {"i": 3}], "_sumifs.keep_filter": [{"i": None}, {"i": 0}]}


def run(ctx):
    res = PropResult('C12')
    K.k1_block(res, ctx, MOD, K1, 'C12.')
    schema.run_table(res, 'C12', TABLE)
    K.canary_contract(res, MOD, '_sumifs.select/1', 'selected',
                      'is_list(result) and all(result[j] == old(sum_range)[j] for j in range(len(result)))')
    K.conformance(res, 'contracts.rt', CONFORMANCE)
    K.monitor_if_present(res, ctx, 'mon_c12')
    res.trusted_base += ['L-SUBST', 'A-ACYCLIC']
    res.assumptions += ['criteria are abstract total callables in the K1 contracts of the selection loops; what a criterion accepts is '
                        'proved on _accepts for typed criteria (a number, a boolean, a date, or one of the six operators joined to '
                        'such an operand); criteria given as text (operator prefix parsing, wildcards, numeric and date texts: str / re / '
                        'dateutil) are decided by the bounded monitor C12.monitor.criteria_* only',
                        'ranges are flat in the K1 contracts (flattening has its own contract, C11); 1 and 2 criteria pairs '
                        'are proved, 3 pairs are bounded',
                        'extraction #head<N>: the final fold statements are dropped from the marking-loop contracts and covered by '
                        'the element contracts count_filter / keep_filter / bool_to_int and C11 _sum']
    return res


def replay(p):
    return K.replay_any(p)
