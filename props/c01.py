"""C01 - formula operators keep their Excel meaning (DESIGN 5 C01)."""
import ast

from pv import propkit as K, schema, source, native
from pv.core import PropResult, Ob

LEVEL = 'proof'
EXPLANATION = ('K1: ExpressionTokenTranslator._group (the regrouping of the right-nested operand chain; three nested loops, a '
               'dictionary of waiting levels) returns, for every chain, the precedence tree of the chain - every operand and '
               'operator kept in order, at every operation the left root not weaker and the right root strictly stronger than the '
               'operation (so one level groups from the left, * / bind tighter than + - than & than comparisons) - given the nine '
               'shapes of an ExpressionToken and the level table of the eleven operators (K2, exhaustive). K-S on the real '
               'translators: each Excel operator is emitted as the Python operator / helper of the same meaning, operands in order, '
               'brackets re-emitted, x% as x/100 normalised, a sign directly before its operand; PARAM (K3): translators only '
               'concatenate child translations; K2: CPython groups a x b y c as the statement\'s table does for all 16 pairs of '
               '+ - * /; K3: a blank cell is the int 0 in arithmetic. NOT proved, decided by the bounded enumeration against a spec '
               'evaluator only: that the text emitted for a tree (_translate_tree: function calls for & and comparisons, flat text '
               'for arithmetic) means the tree for every tree (only the K-S samples and the exhaustive enumeration up to 7 tokens), '
               'which signs a leaf collects, and the literal -> double conversion.')
P1, P2, P3 = 900001, 900002, 900003
TABLE = [(f'op.{n}', f'={P1}{x}{P2}', e, 'operator table') for n, x, e in (
    ('plus', '+', f'{P1} + {P2}'), ('minus', '-', f'{P1} - {P2}'), ('times', '*', f'{P1} * {P2}'), ('divide', '/', f'{P1} / {P2}'),
    ('lt', '<', f"self._compare('<', {P1}, {P2})"), ('gt', '>', f"self._compare('>', {P1}, {P2})"),
    ('le', '<=', f"self._compare('<=', {P1}, {P2})"), ('ge', '>=', f"self._compare('>=', {P1}, {P2})"),
    ('eq', '=', f"self._compare('==', {P1}, {P2})"), ('ne', '<>', f"self._compare('!=', {P1}, {P2})"),
    ('amp', '&', f'self._excel_value_to_string({P1}) + self._excel_value_to_string({P2})'))]
TABLE += [
    ('arith.inorder.add_mul', f'={P1}+{P2}*{P3}', f'{P1} + {P2} * {P3}', 'emitted in order; CPython precedence groups * first'),
    ('arith.inorder.mul_add', f'={P1}*{P2}+{P3}', f'{P1} * {P2} + {P3}', ''),
    ('arith.inorder.sub_sub', f'={P1}-{P2}-{P3}', f'{P1} - {P2} - {P3}', 'left associative'),
    ('arith.inorder.div_div', f'={P1}/{P2}/{P3}', f'{P1} / {P2} / {P3}', 'left associative'),
    ('arith.inorder.div_mul', f'={P1}/{P2}*{P3}', f'{P1} / {P2} * {P3}', ''),
    ('arith.brackets.left', f'=({P1}+{P2})*{P3}', f'({P1} + {P2}) * {P3}', 'brackets re-emitted'),
    ('arith.brackets.right', f'={P1}*({P2}+{P3})', f'{P1} * ({P2} + {P3})', ''),
    ('arith.brackets.right_div', f'={P1}/({P2}*{P3})', f'{P1} / ({P2} * {P3})', 'a bracketed product after / keeps its brackets'),
    ('arith.brackets.right_sub', f'={P1}-({P2}-{P3})', f'{P1} - ({P2} - {P3})', ''),
    ('arith.brackets.nested', f'=(({P1}+{P2}))*{P3}', f'({P1} + {P2}) * {P3}', ''),
    ('sign.before_operand', f'=-{P1}-{P2}', f'-{P1} - {P2}', 'a sign applies to the operand that follows it, not to the rest'),
    ('sign.after_operator', f'={P1}*-{P2}+{P3}', f'{P1} * -{P2} + {P3}', ''),
    ('mixed.arith_cmp', f'={P1}-{P2}={P3}', f"self._compare('==', {P1} - {P2}, {P3})", 'arithmetic binds tighter than a comparison'),
    ('mixed.amp_cmp', f'={P1}&{P2}<{P3}',
     f"self._compare('<', self._excel_value_to_string({P1}) + self._excel_value_to_string({P2}), {P3})", '& binds tighter than a comparison'),
    ('mixed.mul_amp', f'={P1}*{P2}&{P3}', f'self._excel_value_to_string({P1} * {P2}) + self._excel_value_to_string({P3})',
     'arithmetic binds tighter than &'),
    ('mixed.cmp_cmp', f'={P1}<>{P2}={P3}', f"self._compare('==', self._compare('!=', {P1}, {P2}), {P3})", 'comparisons group from the left'),
    ('percent.in_product', f'={P1}/{P2}%*{P3}',
     f'{P1} / self._normalize_float_number({P2} / 100) * {P3}', 'a percentage is an operand; what follows it is not wrapped'),
    ('percent.bracketed', f'=({P1}+{P2})%', f'self._normalize_float_number(({P1} + {P2}) / 100)', 'percent signs after a bracketed expression'),
    ('percent.twice', f'={P1}%%', f'self._normalize_float_number({P1} / 100 ** 2)', 'every percent sign divides by 100'),
    ('percent.emit', f'={P1}%', f'self._normalize_float_number({P1} / 100)', 'x% is x/100 to 15 significant digits'),
    ('operand.cell', '=A1+B2', 'CELL(0, 0, 0) + CELL(0, 1, 1)', 'operands from the workbook go through _cell_preprocessor '
     '(so overrides are seen)'),
    ('literal.int', '=12', '12', 'integer literal stays an int'),
    ('literal.decimal', '=1.14', '1.14', 'numeric literal denotes the double nearest to its decimal text'),
    ('literal.text', '="ab"', "'ab'", ''),
    ('literal.true', '=TRUE', 'True', ''),
    ('literal.false', '=FALSE', 'False', ''),
]


def _cpython_table(res):
    o = Ob('C01.arith.cpython_groups_as_excel', 'K2', decisive=False, function='CPython expression grammar')
    prec = {'+': 1, '-': 1, '*': 2, '/': 2}
    bad = []
    for x in '+-*/':
        for y in '+-*/':
            t = ast.parse(f'a {x} b {y} c', mode='eval').body
            left_first = isinstance(t.left, ast.BinOp)
            want_left = prec[x] >= prec[y]      # equal levels associate to the left
            if left_first != want_left:
                bad.append(f'a{x}b{y}c')
    o.count = 16
    o.status = 'failed' if bad else 'discharged'
    o.detail = f'CPython groups {bad} differently' if bad else \
        'for all 16 ordered pairs of + - * /: * / bind tighter than + -, equal levels associate to the left (as the statement says)'
    res.add(o)


def _emptycell(res):
    def pred(node):
        bases = [ast.unparse(b) for b in node.bases]
        methods = sorted(n.name for n in node.body if isinstance(n, ast.FunctionDef))
        arith = [m for m in methods if m in ('__add__', '__radd__', '__sub__', '__rsub__', '__mul__', '__rmul__', '__truediv__',
                                             '__rtruediv__', '__neg__', '__pos__', '__int__', '__float__', '__new__', '__init__',
                                             '__index__', '__bool__', '__hash__')]
        ok = bases == ['int'] and not arith
        return ok, f'bases {bases}, methods {methods}' + ('' if ok else f'; overrides arithmetic: {arith}')
    K.shape(res, 'C01.EmptyCell.arith_is_int0', 'runtime:EmptyCell', pred,
            'EmptyCell derives from int and defines only comparison methods, so int.__new__(cls) == 0 takes part in every '
            'arithmetic operator as 0')


def _group_facts(res):
    """K2: the facts the K1 contract of _group assumes about the real grammar data and about _level (finite, exhaustive)"""
    try:
        g = native.call('c01k2', 'facts')
    except Exception as e:  # noqa
        o = Ob('C01.Level.table', 'K2', decisive=False, function='ExpressionTokenTranslator._level')
        o.status, o.detail = 'notformed', f'native facts not available: {e!r}'
        res.add(o)
        return
    o = Ob('C01.Level.table', 'K2', decisive=False, function='ExpressionTokenTranslator._level')
    lv = g['level']
    o.count = lv['n']
    o.status = 'discharged' if not lv['bad'] and lv['exactly_the_eleven'] else 'failed'
    o.detail = (f'_level on an instance of each of the {lv["n"]} operator token classes: comparisons 0, & 1, + - 2, * / 3 (weakest to '
                f'strongest, as the statement orders them); _LEVELS lists exactly these classes' if o.status == 'discharged' else
                f'_level disagrees with the statement\'s table: {lv["bad"]}; _LEVELS = {lv["levels"]}')
    res.add(o)
    o = Ob('C01.Grammar.expression_token_sets', 'K2', decisive=False, function='tokens: ExpressionToken, OperatorToken')
    es, oc = g['expression_sets'], g['operator_carriers']
    o.count = len(es['got']) + len(oc['carried'])
    o.status = 'discharged' if es['ok'] and oc['ok'] else 'failed'
    o.detail = ('ExpressionToken has exactly the nine shapes the chain model of _group assumes (operand / percentage / bracketed '
                'expression with or without percent signs, optionally followed by an operator and an expression; a sign followed by an '
                'expression), and an '
                'OperatorToken carries one of the eleven operator tokens that have a level' if o.status == 'discharged' else
                f'token sets differ from the chain model: {es["got"]}; operator carriers: {oc["carried"]}')
    res.add(o)


def run(ctx):
    res = PropResult('C01')
    K.engine_selftest(res)
    K.k1_block(res, ctx, 'contracts.c01', ['ExpressionTokenTranslator._group'], 'C01.')
    _group_facts(res)
    K.canary_contract(res, 'contracts.c01', 'ExpressionTokenTranslator._group', 'precedence_tree', 'c01_wf(result) and c01_rl(result) == 4')
    schema.run_table(res, 'C01', TABLE)
    _cpython_table(res)
    _emptycell(res)
    K.monitor_if_present(res, ctx, 'mon_c01', timeout=3000)
    res.trusted_base += ['L-SUBST', 'L-OPG (Floyd 1963): in an operator-precedence grammar the parse tree of a token string is '
                         'determined by the precedence / associativity table', 'CPython ast']
    res.assumptions += ['the chain model of _group (token shapes, operator carriers, levels) is tied to the real grammar data by K2 '
                        'obligations; that CompositeBaseToken.get only builds tokens of these shapes is C05 shape_is_a_token_set',
                        '_translate_tree (tree -> text) is covered by K-S samples, PARAM and the bounded enumeration, not by a '
                        'contract: text emission is outside the value model of the engine',
                        'the signs collected for an operand are not part of the proved in-order claim (bounded)']
    return res


def replay(p):
    return K.replay_any(p)
