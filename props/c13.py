"""C13 - IF / IFS / IFERROR choose the right branch and contain errors (DESIGN 5 C13)."""
import ast

from pv import propkit as K, schema
from pv.core import PropResult

LEVEL = 'proof'
EXPLANATION = ('K1: _find_error_in_list, _ifs (loop invariant: no earlier condition true), _iferror (abstract guarded '
               'callable) proved for all arguments; K-S: IF is emitted as a parenthesised conditional expression whose '
               'test / body / else are the three arguments (lazy by CPython IfExp semantics), default else False, IFERROR '
               'guards its first argument under a lambda, IFS passes its arguments in order; nesting by L-SUBST; K4 nest '
               'monitor as bounded stand-in.')
MOD = 'contracts.rt'
K1 = ['_find_error_in_list', '_ifs', '_iferror']


def _is_atom(code_raw):
    """the raw emitted text must be bracketed so that it is an operand in any context (L-SUBST delimitation)"""
    return code_raw.startswith('(') and code_raw.endswith(')')


TABLE = [
    ('IF.shape', '=IF(900001,900002,900003)', '900002 if 900001 else 900003', 'IfExp(test=arg1, body=arg2, orelse=arg3)'),
    ('IF.default_else_false', '=IF(900001,900002)', '900002 if 900001 else False', 'third argument omitted -> FALSE'),
    ('IF.operand_of_plus', '=IF(900001,900002,900003)+900004', '(900002 if 900001 else 900003) + 900004',
     'the conditional is an atom: a neighbouring operator does not capture a branch'),
    ('IF.right_operand', '=900004*IF(900001,900002,900003)', '900004 * (900002 if 900001 else 900003)', ''),
    ('IF.nested', '=IF(900001,IF(900002,900003,900004),900005)',
     '(900003 if 900002 else 900004) if 900001 else 900005', 'nesting keeps the pairing'),
    ('IF.in_comparison', '=IF(900001,900002,900003)>900004', "self._compare('>', 900002 if 900001 else 900003, 900004)", ''),
    ('IFERROR.shape', '=IFERROR(900001,900002)', 'self._iferror(lambda: 900001, 900002)',
     'the guarded argument is evaluated under a lambda inside _iferror'),
    ('IFERROR.guards_subexpression', '=IFERROR(900001/900002,900003)', 'self._iferror(lambda: 900001 / 900002, 900003)', ''),
    ('IFS.order', '=IFS(900001,900002,900003,900004)', 'self._ifs(self._flatten_list([900001, 900002, 900003, 900004]))',
     'conditions and values reach _ifs in order as one flat list'),
    ('IFS.three_pairs', '=IFS(900001,900002,900003,900004,900005,900006)',
     'self._ifs(self._flatten_list([900001, 900002, 900003, 900004, 900005, 900006]))', ''),
]


CONFORMANCE = {"_ifs": [{"flatten_list": [0, 1, 2, 3]}, {"flatten_list": [0, 1, 0, 3]}, {"flatten_list": ["#N/A", 1]}, {"flatten_list": []}, {"flatten_list": ["", 1, {"$e": 1}, 2, "x", 3]}], "_find_error_in_list": [{"flatten_list": [1, "#NULL!", "#REF!"]}, {"flatten_list": [1, 2]}, {"flatten_list": [" #NULL!"]}]}


def run(ctx):
    res = PropResult('C13')
    K.k1_block(res, ctx, MOD, K1, 'C13.')
    schema.run_table(res, 'C13', TABLE)
    K.canary_contract(res, MOD, '_ifs', 'first_true_pair', 'result == "#N/A"')
    K.conformance(res, 'contracts.rt', CONFORMANCE)
    K.monitor_if_present(res, ctx, 'mon_c13')
    res.trusted_base += ['L-SUBST: replacing a placeholder in a delimited position by an expression text yields the '
                         'schema tree with that expression substituted (CPython grammar)',
                         'CPython semantics of IfExp and lambda (only the chosen branch / the guarded body is evaluated)']
    res.assumptions += ['A-STATIC', 'IFS and IFERROR evaluate all their arguments before the helper runs (the arguments are '
                        'list elements / call arguments): laziness is claimed for IF only; see known findings C13-K1/K2']
    return res


def replay(p):
    return K.replay_any(p)
