"""C13 - IF / IFS / IFERROR choose the right branch and contain errors (DESIGN 5 C13)."""
import ast

from pv import propkit as K, schema
from pv.core import PropResult

LEVEL = 'proof'
EXPLANATION = ('K1: _find_error_in_list; _ifs over abstract 0-ary callables (loop invariant: no earlier condition true or an '
               'error value): the value paired with the first true condition, #N/A when none is true, the first error-valued '
               'condition is returned, and no exception although the value of a false condition may raise (laziness); _iferror: '
               'the fallback exactly when the guarded callable raises or yields an error value, its value otherwise, and no '
               'exception although an unneeded fallback may raise; K-S: IF is emitted as a parenthesised conditional expression '
               'whose test / body / else are the three arguments (lazy by CPython IfExp semantics), default else False, IFERROR '
               'and IFS pass every argument under its own lambda, in order; nesting by L-SUBST; K4 nest monitor as bounded '
               'stand-in.')
MOD = 'contracts.rt'
K1 = ['_find_error_in_list', '_ifs', '_iferror']


def _is_atom(code_raw):
    """the raw emitted text must be bracketed so that it is an operand in any context (L-SUBST delimitation)"""
    return code_raw.startswith('(') and code_raw.endswith(')')


TABLE = [
    ('IF.shape', '=IF(900001,900002,900003)', '900002 if 900001 else 900003', 'IfExp(test=arg1, body=arg2, orelse=arg3)'),
    ('IF.default_else_false', '=IF(900001,900002)', '900002 if 900001 else False', 'third argument omitted -> FALSE'),
    ('IF.operand_of_plus', '=IF(900001,900002,900003)+900004', '(900002 if 900001 else 900003) + 900004',
     'the conditional is an atom: a neighbouring operator does not capture a branch'),
    ('IF.right_operand', '=900004*IF(900001,900002,900003)', '900004 * (900002 if 900001 else 900003)', ''),
    ('IF.nested', '=IF(900001,IF(900002,900003,900004),900005)',
     '(900003 if 900002 else 900004) if 900001 else 900005', 'nesting keeps the pairing'),
    ('IF.in_comparison', '=IF(900001,900002,900003)>900004', "self._compare('>', 900002 if 900001 else 900003, 900004)", ''),
    ('IFERROR.shape', '=IFERROR(900001,900002)', 'self._iferror(lambda: 900001, lambda: 900002)',
     'both arguments are evaluated under a lambda inside _iferror: the fallback only when it is needed'),
    ('IFERROR.guards_subexpression', '=IFERROR(900001/900002,900003)', 'self._iferror(lambda: 900001 / 900002, lambda: 900003)', ''),
    ('IFS.order', '=IFS(900001,900002,900003,900004)', 'self._ifs([lambda: 900001, lambda: 900002, lambda: 900003, lambda: 900004])',
     'conditions and values reach _ifs in order, each under its own lambda'),
    ('IFS.three_pairs', '=IFS(900001,900002,900003,900004,900005,900006)',
     'self._ifs([lambda: 900001, lambda: 900002, lambda: 900003, lambda: 900004, lambda: 900005, lambda: 900006])', ''),
]


CONFORMANCE = {"_find_error_in_list": [{"flatten_list": [1, "#NULL!", "#REF!"]}, {"flatten_list": [1, 2]}, {"flatten_list": [" #NULL!"]}]}


def run(ctx):
    res = PropResult('C13')
    K.k1_block(res, ctx, MOD, K1, 'C13.')
    schema.run_table(res, 'C13', TABLE)
    K.canary_contract(res, MOD, '_ifs', 'first_true_pair', 'result == "#N/A"')
    K.conformance(res, 'contracts.rt', CONFORMANCE)
    K.monitor_if_present(res, ctx, 'mon_c13')
    res.trusted_base += ['L-SUBST: replacing a placeholder in a delimited position by an expression text yields the '
                         'schema tree with that expression substituted (CPython grammar)',
                         'CPython semantics of IfExp and lambda (only the chosen branch / the guarded body is evaluated)']
    res.assumptions += ['A-STATIC', 'the arguments of IFS and IFERROR are abstract 0-ary callables in the K1 contracts (call0 / raises0): '
                        'a value whose condition is not the first true one, and a fallback that is not needed, may raise without '
                        'effect - the contracts allow no exception in that case, which is the laziness claim']
    return res


def replay(p):
    return K.replay_any(p)
