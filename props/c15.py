"""C15 - date functions follow the Gregorian calendar exactly (DESIGN 5 C15)."""
from pv import propkit as K, schema, native
from pv.core import PropResult, Ob

LEVEL = 'proof'
EXPLANATION = ('K1 under K5 calendar contracts (closed-form ordinal, month lengths, relativedelta month arithmetic): _date, '
               '_edate, _eomonth, _datedif (D, M, Y, YM as complete days / months / years), _year/_month/_day, NETWORKDAYS '
               'without holidays (loop invariant over a counting spec); K2 conformance of the K5 contracts against the real '
               'datetime / calendar / dateutil on a 3-century window; K-S binding; holidays bounded only.')
MOD = 'contracts.rt'
K1 = ['_date', '_edate', '_eomonth', '_datedif/D', '_datedif/M', '_datedif/Y', '_datedif/YM', '_year', '_month', '_day',
      '_network_days/forward', '_network_days/reversed']
C = "CELL(0, 0, {r})"
TABLE = [
    ('DATE.binding', '=DATE(900001,900002,900003)', 'self._date(900001, 900002, 900003)', ''),
    ('EDATE.binding', '=EDATE(A1,900001)', 'self._edate(CELL(0, 0, 0), 900001)', ''),
    ('EOMONTH.binding', '=EOMONTH(A1,900001)', 'self._eomonth(CELL(0, 0, 0), 900001)', ''),
    ('DATEDIF.binding', '=DATEDIF(A1,A2,"M")', "self._datedif(CELL(0, 0, 0), CELL(0, 0, 1), 'M')", ''),
    ('NETWORKDAYS.two_args', '=NETWORKDAYS(A1,A2)', 'self._network_days(CELL(0, 0, 0), CELL(0, 0, 1), None)', 'no holidays'),
    ('NETWORKDAYS.holidays', '=NETWORKDAYS(A1,A2,B1:B2)',
     'self._network_days(CELL(0, 0, 0), CELL(0, 0, 1), AREA(0, 1, 0, 1, 1))', ''),
    ('YEAR.binding', '=YEAR(A1)', 'self._year(CELL(0, 0, 0))', ''),
    ('MONTH.binding', '=MONTH(A1)', 'self._month(CELL(0, 0, 0))', ''),
    ('DAY.binding', '=DAY(A1)', 'self._day(CELL(0, 0, 0))', ''),
    ('TODAY.binding', '=TODAY()', 'self._today()', ''),
]


def _k5_conformance(res, ctx):
    o = Ob('C15.K5.calendar_conformance', 'K2', decisive=False, function='datetime / calendar / dateutil.relativedelta')
    r = native.call('c15k5', 'conformance', years=[1899, 2101] if not ctx.thorough else [1, 2400])
    o.count = r['n']
    if r['bad']:
        o.status, o.detail = 'failed', f'K5 calendar contract disagrees with the library: {r["bad"][:3]}'
    else:
        o.status = 'discharged'
        o.detail = (f'{r["n"]} checks: ordinal closed form, month lengths, leap rule, weekday, relativedelta(months=k) '
                    f'against the real libraries for every day of years {r["years"]}')
    res.add(o)


CONFORMANCE = {"_date": [{"year": 2022, "month": 1, "day": -2}, {"year": 99, "month": 14, "day": 31}, {"year": 10000, "month": 1, "day": 1}, {"year": 2024, "month": 0, "day": 0}, {"year": 2023, "month": -11, "day": 400}], "_datedif/M": [{"date_start": {"$dt": [2019, 12, 8, 0, 0, 0, 0]}, "date_end": {"$dt": [2020, 12, 6, 0, 0, 0, 0]}, "mode": "M"}], "_datedif/Y": [{"date_start": {"$dt": [2019, 1, 1, 0, 0, 0, 0]}, "date_end": {"$dt": [2020, 12, 31, 0, 0, 0, 0]}, "mode": "Y"}], "_datedif/YM": [{"date_start": {"$dt": [2019, 12, 8, 0, 0, 0, 0]}, "date_end": {"$dt": [2020, 12, 6, 0, 0, 0, 0]}, "mode": "YM"}], "_datedif/D": [{"date_start": {"$dt": [2020, 2, 28, 0, 0, 0, 0]}, "date_end": {"$dt": [2020, 3, 1, 0, 0, 0, 0]}, "mode": "D"}, {"date_start": {"$dt": [2020, 3, 1, 0, 0, 0, 0]}, "date_end": {"$dt": [2020, 2, 1, 0, 0, 0, 0]}, "mode": "D"}], "_edate": [{"start_date": {"$dt": [2023, 12, 31, 0, 0, 0, 0]}, "months": 2}, {"start_date": {"$dt": [2024, 1, 31, 0, 0, 0, 0]}, "months": 13}, {"start_date": {"$dt": [2024, 3, 31, 6, 0, 0, 0]}, "months": -1}], "_eomonth": [{"start_date": {"$dt": [2023, 1, 15, 0, 0, 0, 0]}, "months": 1}, {"start_date": {"$dt": [2060, 1, 15, 0, 0, 0, 0]}, "months": -11}], "_network_days/forward": [{"date_start": {"$dt": [2024, 1, 1, 0, 0, 0, 0]}, "date_end": {"$dt": [2024, 1, 7, 0, 0, 0, 0]}, "holidays": None}], "_network_days/reversed": [{"date_start": {"$dt": [2024, 1, 7, 0, 0, 0, 0]}, "date_end": {"$dt": [2024, 1, 1, 0, 0, 0, 0]}, "holidays": None}]}


def run(ctx):
    res = PropResult('C15')
    K.k1_block(res, ctx, MOD, K1, 'C15.')
    _k5_conformance(res, ctx)
    K.ord_lex(res, 'C15')
    schema.run_table(res, 'C15', TABLE)
    K.canary_contract(res, MOD, '_eomonth', 'last_day_of_target_month',
                      'is_datetime(result) and tord(result) == fom(mi(tord(start_date)) + I(months)) + 27')
    K.conformance(res, 'contracts.rt', CONFORMANCE)
    K.monitor_if_present(res, ctx, 'mon_c15', drop={
        'C15.monitor.date_objects': 'datetime.date override values are outside the statement: openpyxl delivers datetime.datetime only, '
                                    'and the helpers answer #VALUE! / #NUM! for any other type by design'})
    res.assumptions += ['A-EXT: K5 calendar contracts (conformance-checked every run)', 'results stay inside years 1..9999',
                        'month offsets are ints (fractional offsets are truncated by trunc(): bounded monitor)',
                        'TODAY: today\'s local date is external (not decided)']
    return res


def replay(p):
    return K.replay_any(p)
