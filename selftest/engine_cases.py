"""Small functions that exercise the executor's rules for the constructs added during the build (try / finally, tuple(), dict.pop,
sorted(dict), dictionary stores).  tools/engine_selftest.py proves an exact contract for each and checks that a wrong contract is
NOT proved - a guard against rules that make paths vanish or facts contradictory."""


def finally_counts(x):
    n = 0
    try:
        if x > 0:
            return n + 10
        n = n + 1
    finally:
        n = n + 100
    return n


def finally_raises(d, k):
    seen = 0
    try:
        v = d[k]
        seen = 1
    finally:
        seen = seen + 2
    return v + seen


def pop_max(d):
    out = []
    for k in sorted(d, reverse=True):
        if k >= 2:
            v = d.pop(k)
            out.append(v)
    return len(out), len(d)


def as_tuple(xs):
    t = tuple(xs)
    return len(t), t[0]


def store_then_sorted(a, b):
    d = {}
    d[a] = 1
    d[b] = 2
    ks = sorted(d)
    return ks[0], len(ks)


def pop_one(d, k):
    v = d.pop(k)
    return v, len(d), k in d
